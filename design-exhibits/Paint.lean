namespace Paint

structure Cell where
  ch : Nat
  face : Nat
deriving DecidableEq

inductive Mark | empty | ignored | damaged
deriving DecidableEq

inductive Cmd
  | face (f : Nat) | cursorTo (c : Nat) | char (ch : Nat) | erase (n : Nat)

/-- row-local terminal state; cells as a total function, only columns < W matter -/
structure Scr where
  cells : Nat → Cell
  cur : Nat
  face : Nat

def upd (f : Nat → Cell) (i : Nat) (v : Cell) : Nat → Cell := fun k => if k = i then v else f k
def updRange (f : Nat → Cell) (i n : Nat) (v : Cell) : Nat → Cell := fun k => if i ≤ k ∧ k < i + n then v else f k

def exec (s : Scr) : Cmd → Scr
  | .face f => { s with face := f }
  | .cursorTo c => { s with cur := c }
  | .char ch => { s with cells := upd s.cells s.cur ⟨ch, s.face⟩, cur := s.cur + 1 }
  | .erase n => { s with cells := updRange s.cells s.cur n ⟨32, s.face⟩ }

def execAll (s : Scr) (cs : List Cmd) : Scr := cs.foldl exec s

/-- length of the run of cells equal to `c` and not ignored, starting at `col`, bounded by `W` -/
def run (new : Nat → Cell) (marks : Nat → Mark) (c : Cell) (W : Nat) (col : Nat) : Nat :=
  if h : col < W then
    if new col = c ∧ marks col ≠ .ignored then 1 + run new marks c W (col + 1) else 0
  else 0
termination_by W - col

theorem run_spec (new marks c W col) :
    col + run new marks c W col ≤ max W col ∧
    ∀ k, col ≤ k → k < col + run new marks c W col → new k = c ∧ marks k ≠ .ignored := by
  fun_induction run new marks c W col with
  | case1 col h hc ih =>
    obtain ⟨ih1, ih2⟩ := ih
    refine ⟨by omega, ?_⟩
    intro k hk1 hk2
    by_cases hk : k = col
    · subst hk; exact hc
    · exact ih2 k (by omega) (by omega)
  | case2 col h hc => exact ⟨by omega, fun k a b => by omega⟩
  | case3 col h => exact ⟨by omega, fun k a b => by omega⟩

structure Tr where   -- what the renderer believes
  cur : Option Nat
  face : Option Nat

def faceCmd (t : Tr) (f : Nat) : List Cmd := if t.face = some f then [] else [.face f]
def curCmd (t : Tr) (c : Nat) : List Cmd := if t.cur = some c then [] else [.cursorTo c]

/-- second pass over one row, as in `TerminalRenderer::frame` (narrow characters) -/
def paint (old new : Nat → Cell) (marks : Nat → Mark) (W : Nat) (col : Nat) (t : Tr) : List Cmd × Tr :=
  if h : col < W then
    if marks col ≠ .damaged ∧ (marks col = .ignored ∨ old col = new col) then
      paint old new marks W (col + 1) t
    else
      let pre := faceCmd t (new col).face ++ curCmd t col
      if (new col).ch = 32 then
        let rep := 1 + run new marks (new col) W (col + 1)
        if rep > 4 then
          let r := paint old new marks W (col + rep) { cur := some col, face := some (new col).face }
          (pre ++ [.erase rep] ++ r.1, r.2)
        else
          let r := paint old new marks W (col + rep) { cur := some (col + rep), face := some (new col).face }
          (pre ++ List.replicate rep (.char 32) ++ r.1, r.2)
      else
        let r := paint old new marks W (col + 1) { cur := some (col + 1), face := some (new col).face }
        (pre ++ [.char (new col).ch] ++ r.1, r.2)
  else ([], t)
termination_by W - col
decreasing_by all_goals omega

def Agree (t : Tr) (s : Scr) : Prop :=
  (∀ c, t.cur = some c → s.cur = c) ∧ (∀ f, t.face = some f → s.face = f)

theorem execAll_append (s : Scr) (a b : List Cmd) : execAll s (a ++ b) = execAll (execAll s a) b := by
  simp [execAll, List.foldl_append]

/-- after the optional face and cursor commands the terminal is where the renderer needs it -/
theorem pre_ok (t : Tr) (s : Scr) (f c : Nat) (h : Agree t s) :
    let s' := execAll s (faceCmd t f ++ curCmd t c)
    s'.cells = s.cells ∧ s'.cur = c ∧ s'.face = f := by
  obtain ⟨h1, h2⟩ := h
  by_cases hf : t.face = some f <;> by_cases hc : t.cur = some c <;>
    simp [faceCmd, curCmd, hf, hc, execAll, exec, h1 c, h2 f] <;>
    first | exact h1 c hc | exact h2 f hf | exact ⟨h1 c hc, h2 f hf⟩ | skip

theorem exec_chars (s : Scr) (n : Nat) :
    (execAll s (List.replicate n (.char 32))).cur = s.cur + n ∧
    (execAll s (List.replicate n (.char 32))).face = s.face ∧
    (execAll s (List.replicate n (.char 32))).cells = updRange s.cells s.cur n ⟨32, s.face⟩ := by
  induction n generalizing s with
  | zero =>
    refine ⟨by simp [execAll], by simp [execAll], ?_⟩
    funext k; simp only [execAll, List.replicate_zero, List.foldl_nil, updRange]
    split
    · omega
    · rfl
  | succ n ih =>
    have := ih (exec s (.char 32))
    simp only [List.replicate_succ, execAll, List.foldl_cons] at this ⊢
    obtain ⟨a, b, c⟩ := this
    refine ⟨by rw [a]; simp [exec]; omega, by rw [b]; simp [exec], ?_⟩
    rw [c]; funext k
    simp only [updRange, exec, upd]
    by_cases h1 : k = s.cur
    · subst h1; simp
    · by_cases h2 : s.cur + 1 ≤ k ∧ k < s.cur + 1 + n
      · have : s.cur ≤ k ∧ k < s.cur + (n + 1) := by omega
        simp [h2, this]
      · have : ¬ (s.cur ≤ k ∧ k < s.cur + (n + 1)) := by omega
        simp [h1, h2, this]

/-- C01, one row: whatever the terminal showed in damaged cells, and provided unmarked cells showed
    `old`, after the emitted commands every non-ignored cell from `col` on shows `new`, ignored
    cells and cells left of `col` are untouched, and the renderer's belief still agrees. -/
theorem paint_correct (old new : Nat → Cell) (marks : Nat → Mark) (W col : Nat) (t : Tr) (s : Scr)
    (hag : Agree t s)
    (hold : ∀ k, col ≤ k → k < W → marks k = .empty → s.cells k = old k) :
    let r := paint old new marks W col t
    let s' := execAll s r.1
    Agree r.2 s' ∧
    (∀ k, k < col → s'.cells k = s.cells k) ∧
    (∀ k, W ≤ k → s'.cells k = s.cells k) ∧
    (∀ k, col ≤ k → k < W → marks k = .ignored → s'.cells k = s.cells k) ∧
    (∀ k, col ≤ k → k < W → marks k ≠ .ignored → s'.cells k = new k) := by
  fun_induction paint old new marks W col t generalizing s with
  | case1 col t h hskip ih =>
    obtain ⟨a, b, c, d, e⟩ := ih s hag (fun k h1 h2 h3 => hold k (by omega) h2 h3)
    refine ⟨a, fun k hk => b k (by omega), c, ?_, ?_⟩
    · intro k h1 h2 h3
      by_cases hk : k = col
      · subst hk; exact b k (by omega)
      · exact d k (by omega) h2 h3
    · intro k h1 h2 h3
      by_cases hk : k = col
      · subst hk
        rw [b k (by omega)]
        rcases hskip with ⟨hd, hi | ho⟩
        · exact absurd hi h3
        · have : marks k = .empty := by
            cases hm : marks k <;> simp_all
          rw [hold k (by omega) h2 this, ho]
      · exact e k (by omega) h2 h3
  | case2 col t h hskip pre hblank rep hrep r ih =>
    -- blank run, erased with one EraseChars
    obtain ⟨pc, pcur, pface⟩ := pre_ok t s (new col).face col hag
    have hrun := run_spec new marks (new col) W (col + 1)
    let s1 := execAll s (faceCmd t (new col).face ++ curCmd t col)
    let s2 := exec s1 (.erase rep)
    have hag2 : Agree { cur := some col, face := some (new col).face } s2 := by
      constructor
      · intro c hc; simp at hc; subst hc; simp [s2, exec, s1, pcur]
      · intro f hf; simp at hf; subst hf; simp [s2, exec, s1, pface]
    have hcells2 : s2.cells = updRange s.cells col rep (new col) := by
      simp only [s2, exec, s1, pc, pcur, pface]
      congr 1
      cases hc : new col with
      | mk ch face => simp [hc] at hblank ⊢; exact hblank.symm
    have hold2 : ∀ k, col + rep ≤ k → k < W → marks k = .empty → s2.cells k = old k := by
      intro k h1 h2 h3
      rw [hcells2]; simp only [updRange]
      have : ¬ (col ≤ k ∧ k < col + rep) := by omega
      simp [this]; exact hold k (by omega) h2 h3
    obtain ⟨a, b, c, d, e⟩ := ih s2 hag2 hold2
    have hexec : execAll s (pre ++ [.erase rep] ++ r.1) = execAll s2 r.1 := by
      simp [execAll_append, s2, s1, pre, execAll]
    simp only [hexec]
    have hrepW : col + rep ≤ W := by
      have := hrun.1; simp only [rep]; omega
    refine ⟨a, ?_, ?_, ?_, ?_⟩
    · intro k hk; rw [b k (by omega), hcells2]; simp [updRange]; omega
    · intro k hk; rw [c k hk, hcells2]; simp only [updRange]
      have : ¬ (col ≤ k ∧ k < col + rep) := by omega
      simp [this]
    · intro k h1 h2 h3
      by_cases hk : k < col + rep
      · -- cells inside the run are never ignored
        exfalso
        by_cases hk0 : k = col
        · subst hk0
          have : marks k = .damaged ∨ (marks k ≠ .ignored ∧ old k ≠ new k) := by
            by_cases hd : marks k = .damaged
            · exact Or.inl hd
            · right; constructor
              · intro hi; exact hskip ⟨hd, Or.inl hi⟩
              · intro ho; exact hskip ⟨hd, Or.inr ho⟩
          rcases this with hd | ⟨hn, _⟩
          · rw [hd] at h3; cases h3
          · exact hn h3
        · exact (hrun.2 k (by omega) (by simp only [rep] at hk; omega)).2 h3
      · rw [d k (by omega) h2 h3, hcells2]; simp only [updRange]
        have : ¬ (col ≤ k ∧ k < col + rep) := by omega
        simp [this]
    · intro k h1 h2 h3
      by_cases hk : k < col + rep
      · rw [b k hk, hcells2]; simp only [updRange]
        have : col ≤ k ∧ k < col + rep := ⟨h1, hk⟩
        simp [this]
        by_cases hk0 : k = col
        · subst hk0; rfl
        · exact (hrun.2 k (by omega) (by simp only [rep] at hk; omega)).1.symm
      · exact e k (by omega) h2 h3
  | case3 col t h hskip pre hblank rep hrep r ih =>
    -- short blank run, written as characters
    obtain ⟨pc, pcur, pface⟩ := pre_ok t s (new col).face col hag
    have hrun := run_spec new marks (new col) W (col + 1)
    let s1 := execAll s (faceCmd t (new col).face ++ curCmd t col)
    let s2 := execAll s1 (List.replicate rep (.char 32))
    obtain ⟨ecur, eface, ecells⟩ := exec_chars s1 rep
    have hag2 : Agree { cur := some (col + rep), face := some (new col).face } s2 := by
      constructor
      · intro c hc; simp at hc; subst hc; simp only [s2, ecur, s1, pcur]
      · intro f hf; simp at hf; subst hf; simp only [s2, eface, s1, pface]
    have hcells2 : s2.cells = updRange s.cells col rep (new col) := by
      simp only [s2, ecells, s1, pc, pcur, pface]
      congr 1
      cases hc : new col with
      | mk ch face => simp [hc] at hblank ⊢; exact hblank.symm
    have hold2 : ∀ k, col + rep ≤ k → k < W → marks k = .empty → s2.cells k = old k := by
      intro k h1 h2 h3
      rw [hcells2]; simp only [updRange]
      have : ¬ (col ≤ k ∧ k < col + rep) := by omega
      simp [this]; exact hold k (by omega) h2 h3
    obtain ⟨a, b, c, d, e⟩ := ih s2 hag2 hold2
    have hexec : execAll s (pre ++ List.replicate rep (.char 32) ++ r.1) = execAll s2 r.1 := by
      simp [execAll_append, s2, s1, pre]
    simp only [hexec]
    have hrepW : col + rep ≤ W := by
      have := hrun.1; simp only [rep]; omega
    refine ⟨a, ?_, ?_, ?_, ?_⟩
    · intro k hk; rw [b k (by omega), hcells2]; simp [updRange]; omega
    · intro k hk; rw [c k hk, hcells2]; simp only [updRange]
      have : ¬ (col ≤ k ∧ k < col + rep) := by omega
      simp [this]
    · intro k h1 h2 h3
      by_cases hk : k < col + rep
      · exfalso
        by_cases hk0 : k = col
        · subst hk0
          by_cases hd : marks k = .damaged
          · rw [hd] at h3; cases h3
          · exact hskip ⟨hd, Or.inl h3⟩
        · exact (hrun.2 k (by omega) (by simp only [rep] at hk; omega)).2 h3
      · rw [d k (by omega) h2 h3, hcells2]; simp only [updRange]
        have : ¬ (col ≤ k ∧ k < col + rep) := by omega
        simp [this]
    · intro k h1 h2 h3
      by_cases hk : k < col + rep
      · rw [b k hk, hcells2]; simp only [updRange]
        have : col ≤ k ∧ k < col + rep := ⟨h1, hk⟩
        simp [this]
        by_cases hk0 : k = col
        · subst hk0; rfl
        · exact (hrun.2 k (by omega) (by simp only [rep] at hk; omega)).1.symm
      · exact e k (by omega) h2 h3
  | case4 col t h hskip pre hblank r ih =>
    -- a single non-blank character
    obtain ⟨pc, pcur, pface⟩ := pre_ok t s (new col).face col hag
    let s1 := execAll s (faceCmd t (new col).face ++ curCmd t col)
    let s2 := exec s1 (.char (new col).ch)
    have hag2 : Agree { cur := some (col + 1), face := some (new col).face } s2 := by
      constructor
      · intro c hc; simp at hc; subst hc; simp [s2, exec, s1, pcur]
      · intro f hf; simp at hf; subst hf; simp [s2, exec, s1, pface]
    have hcells2 : s2.cells = upd s.cells col (new col) := by
      simp only [s2, exec, s1, pc, pcur, pface]
    have hold2 : ∀ k, col + 1 ≤ k → k < W → marks k = .empty → s2.cells k = old k := by
      intro k h1 h2 h3
      rw [hcells2]; simp only [upd]
      have : k ≠ col := by omega
      simp [this]; exact hold k (by omega) h2 h3
    obtain ⟨a, b, c, d, e⟩ := ih s2 hag2 hold2
    have hexec : execAll s (pre ++ [.char (new col).ch] ++ r.1) = execAll s2 r.1 := by
      simp [execAll_append, s2, s1, pre, execAll]
    simp only [hexec]
    refine ⟨a, ?_, ?_, ?_, ?_⟩
    · intro k hk; rw [b k (by omega), hcells2]; simp only [upd]
      have : k ≠ col := by omega
      simp [this]
    · intro k hk; rw [c k hk, hcells2]; simp only [upd]
      have : k ≠ col := by omega
      simp [this]
    · intro k h1 h2 h3
      by_cases hk0 : k = col
      · subst hk0; exfalso
        by_cases hd : marks k = .damaged
        · rw [hd] at h3; cases h3
        · exact hskip ⟨hd, Or.inl h3⟩
      · rw [d k (by omega) h2 h3, hcells2]; simp only [upd]; simp [hk0]
    · intro k h1 h2 h3
      by_cases hk0 : k = col
      · subst hk0; rw [b k (by omega), hcells2]; simp [upd]
      · exact e k (by omega) h2 h3
  | case5 col t h => 
    simp [execAll]
    exact ⟨hag, fun k a b => by omega⟩

end Paint
