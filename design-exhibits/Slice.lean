namespace SliceExhibit

/-! Prototype for C08: `range_bounds` over i64 with the clamp/mod normalisation, against Python slices. -/

def clampI (v lo hi : Int) : Int := if v < lo then lo else if v > hi then hi else v

/-- one bound, as in the source: `clamp(x + size, 0, 2*size-1) % size + offset` with offset forced to 1 when x ≥ size -/
def normBound (x : Int) (off : Int) (n : Int) : Int :=
  let off := if x ≥ n then 1 else off
  clampI (x + n) 0 (2 * n - 1) % n + off

/-- Python: index i on axis n, clamped -/
def pyIdx (i n : Int) : Int := if i < 0 then max (i + n) 0 else min i n

theorem emod_small {x n : Int} (h0 : 0 ≤ x) (h1 : x < n) : x % n = x := Int.emod_eq_of_lt h0 h1

theorem emod_shift {x n : Int} (h0 : n ≤ x) (h1 : x < 2 * n) : x % n = x - n := by
  have h : x = (x - n) + n := by omega
  rw [h, Int.add_emod_right]
  have := emod_small (x := x - n) (n := n) (by omega) (by omega)
  omega

/-- exclusive bound (offset 0): equals Python's clamped index -/
theorem normBound_excl (x n : Int) (hn : 0 < n) : normBound x 0 n = pyIdx x n := by
  unfold normBound pyIdx clampI
  by_cases h1 : x + n < 0
  · have : ¬ x ≥ n := by omega
    simp [h1, this]; omega
  · by_cases h2 : x + n > 2 * n - 1
    · have hx : x ≥ n := by omega
      have : (2 * n - 1) % n = n - 1 := by
        have := emod_shift (x := 2 * n - 1) (n := n) (by omega) (by omega); omega
      simp [h1, h2, hx, this]; omega
    · by_cases h3 : x < 0
      · have : ¬ x ≥ n := by omega
        have e := emod_small (x := x + n) (n := n) (by omega) (by omega)
        simp [h1, h2, this, e, h3]; omega
      · have : ¬ x ≥ n := by omega
        have e := emod_shift (x := x + n) (n := n) (by omega) (by omega)
        simp [h1, h2, this, e, h3]; omega

/-- inclusive end (offset 1): Python's `x+1` exclusive, *except* that the source gets x < -n wrong -/
theorem normBound_incl (x n : Int) (hn : 0 < n) (hx : -n ≤ x) : normBound x 1 n = pyIdx x n + (if x ≥ n then 0 else 1) := by
  unfold normBound pyIdx clampI
  by_cases h2 : x + n > 2 * n - 1
  · have hx' : x ≥ n := by omega
    have : (2 * n - 1) % n = n - 1 := by
      have := emod_shift (x := 2 * n - 1) (n := n) (by omega) (by omega); omega
    have h1 : ¬ x + n < 0 := by omega
    simp [h1, h2, hx', this]; omega
  · have h1 : ¬ x + n < 0 := by omega
    by_cases h3 : x < 0
    · have : ¬ x ≥ n := by omega
      have e := emod_small (x := x + n) (n := n) (by omega) (by omega)
      simp [h1, h2, this, e, h3]; omega
    · have : ¬ x ≥ n := by omega
      have e := emod_shift (x := x + n) (n := n) (by omega) (by omega)
      simp [h1, h2, this, e, h3]; omega

/-- the defect on the pinned tree, as a kernel-checked witness on the model -/
example : normBound (-11) 1 10 = 1 := by decide

/-- two's complement reinterpretation `as i64` of a u64 value -/
def asI64 (v : Nat) : Int := if v < 2^63 then v else (v : Int) - 2^64
example : asI64 (2^64 - 1) = -1 := by decide

end SliceExhibit
