import P.Graph
namespace NFAnum
open Graph

structure NState where
  edges : List (UInt8 × Nat)
  eps : List Nat

structure NFA where
  start : Nat
  stop : Nat
  states : List NState

def NState.shift (k : Nat) (s : NState) : NState :=
  { edges := s.edges.map (fun p => (p.1, p.2 + k)), eps := s.eps.map (· + k) }

/-- the graph a numbered NFA denotes -/
def gr (states : List NState) : Gr Nat :=
  { edge := fun s b t => ∃ st, states[s]? = some st ∧ (b, t) ∈ st.edges
    eps := fun s t => ∃ st, states[s]? = some st ∧ t ∈ st.eps }

def NFA.Lang (n : NFA) (w : List UInt8) : Prop := Path (gr n.states) n.start w n.stop

/-- all edge targets are state ids -/
def WFs (states : List NState) : Prop :=
  ∀ (s : Nat) (st : NState), states[s]? = some st →
    (∀ p ∈ st.edges, p.2 < states.length) ∧ (∀ t ∈ st.eps, t < states.length)

def NFA.WF (n : NFA) : Prop := n.start < n.states.length ∧ n.stop < n.states.length ∧ WFs n.states

/-- `epsilons.insert(t)` on state `s` -/
def addEps (states : List NState) (s t : Nat) : List NState :=
  states.modify s (fun st => { st with eps := t :: st.eps })

/-- `NFA::sequence([a, b])`: `merge_states` with offset 0 (second operand shifted by `|a|`), then the
    bridge `a.stop →ε b.start` -/
def seq2 (a b : NFA) : NFA :=
  let off := a.states.length
  { start := a.start
    stop := b.stop + off
    states := addEps (a.states ++ b.states.map (NState.shift off)) a.stop (b.start + off) }

/-! ### the merged graph, edge by edge -/

theorem getElem?_addEps (states : List NState) (s t i : Nat) :
    (addEps states s t)[i]? =
      if i = s then (states[i]?).map (fun st => { st with eps := t :: st.eps }) else states[i]? := by
  unfold addEps
  rw [List.getElem?_modify]
  by_cases h : s = i
  · subst h; simp
  · have : ¬ i = s := fun e => h e.symm
    simp [h, this]

theorem edge_addEps (states : List NState) (s t x : Nat) (b : UInt8) (y : Nat) :
    (gr (addEps states s t)).edge x b y ↔ (gr states).edge x b y := by
  simp only [gr, getElem?_addEps]
  by_cases h : x = s
  · subst h
    constructor
    · rintro ⟨st, h1, h2⟩
      cases hs : states[x]? with
      | none => simp [hs] at h1
      | some st0 => simp [hs] at h1; subst h1; exact ⟨st0, rfl, h2⟩
    · rintro ⟨st, h1, h2⟩
      exact ⟨{ st with eps := t :: st.eps }, by simp [h1], h2⟩
  · simp [h]

theorem eps_addEps (states : List NState) (s t x y : Nat) (hs : s < states.length) :
    (gr (addEps states s t)).eps x y ↔ (gr states).eps x y ∨ (x = s ∧ y = t) := by
  simp only [gr, getElem?_addEps]
  by_cases h : x = s
  · subst h
    have hx : ∃ st0, states[x]? = some st0 := ⟨states[x], by simp [hs]⟩
    obtain ⟨st0, h0⟩ := hx
    constructor
    · rintro ⟨st, h1, h2⟩
      simp [h0] at h1; subst h1
      simp at h2
      rcases h2 with h2 | h2
      · exact Or.inr ⟨rfl, h2⟩
      · exact Or.inl ⟨st0, h0, h2⟩
    · rintro (⟨st, h1, h2⟩ | ⟨_, h2⟩)
      · refine ⟨{ st with eps := t :: st.eps }, by simp [h1], ?_⟩
        simp [h2]
      · refine ⟨{ st0 with eps := t :: st0.eps }, by simp [h0], ?_⟩
        simp [h2]
  · simp [h]

/-- edges of the left operand survive unchanged in the merge -/
theorem gr_append_left (xs ys : List NState) (s : Nat) (hs : s < xs.length) :
    (xs ++ ys)[s]? = xs[s]? := List.getElem?_append_left hs

theorem gr_append_right (xs ys : List NState) (s : Nat) (hs : xs.length ≤ s) :
    (xs ++ ys)[s]? = ys[s - xs.length]? := List.getElem?_append_right hs

/-- a path in the left operand is a path in the merged graph -/
theorem path_left (a b : NFA) {s t : Nat} {w} (h : Path (gr a.states) s w t) :
    Path (gr (seq2 a b).states) s w t := by
  induction h with
  | refl s => exact Path.refl s
  | @eps s t u w he _ ih =>
    obtain ⟨st, h1, h2⟩ := he
    have hs : s < a.states.length := by
      rcases Nat.lt_or_ge s a.states.length with h | h
      · exact h
      · rw [List.getElem?_eq_none h] at h1; cases h1
    refine Path.eps ?_ ih
    show (gr (addEps _ _ _)).eps s t
    have hlen : a.stop < (a.states ++ b.states.map (NState.shift a.states.length)).length ∨ True := Or.inr trivial
    by_cases hst : a.stop < (a.states ++ b.states.map (NState.shift a.states.length)).length
    · rw [eps_addEps _ _ _ _ _ hst]
      exact Or.inl ⟨st, by rw [gr_append_left _ _ _ hs]; exact h1, h2⟩
    · -- stop out of range: `modify` is the identity
      simp only [gr, getElem?_addEps]
      have : s ≠ a.stop := by
        intro e; subst e
        exact hst (by simp; omega)
      simp only [this, if_false]
      exact ⟨st, by rw [gr_append_left _ _ _ hs]; exact h1, h2⟩
  | @sym s t u c w he _ ih =>
    obtain ⟨st, h1, h2⟩ := he
    have hs : s < a.states.length := by
      rcases Nat.lt_or_ge s a.states.length with h | h
      · exact h
      · rw [List.getElem?_eq_none h] at h1; cases h1
    refine Path.sym ?_ ih
    show (gr (addEps _ _ _)).edge s c t
    rw [edge_addEps]
    exact ⟨st, by rw [gr_append_left _ _ _ hs]; exact h1, h2⟩

/-- a path in the right operand, shifted, is a path in the merged graph -/
theorem path_right (a b : NFA) (ha : a.WF) {s t : Nat} {w} (h : Path (gr b.states) s w t) :
    Path (gr (seq2 a b).states) (s + a.states.length) w (t + a.states.length) := by
  have hstop : a.stop < a.states.length := ha.2.1
  induction h with
  | refl s => exact Path.refl _
  | @eps s t u w he _ ih =>
    obtain ⟨st, h1, h2⟩ := he
    refine Path.eps ?_ ih
    show (gr (addEps _ _ _)).eps _ _
    rw [eps_addEps _ _ _ _ _ (by simp; omega)]
    refine Or.inl ⟨st.shift a.states.length, ?_, ?_⟩
    · rw [gr_append_right _ _ _ (by omega)]
      simp [h1]
    · simp only [NState.shift, List.mem_map]
      exact ⟨t, h2, rfl⟩
  | @sym s t u c w he _ ih =>
    obtain ⟨st, h1, h2⟩ := he
    refine Path.sym ?_ ih
    show (gr (addEps _ _ _)).edge _ _ _
    rw [edge_addEps]
    refine ⟨st.shift a.states.length, ?_, ?_⟩
    · rw [gr_append_right _ _ _ (by omega)]
      simp [h1]
    · simp only [NState.shift, List.mem_map]
      exact ⟨(c, t), h2, rfl⟩

/-- C15, `sequence`, easy direction: L(a)·L(b) ⊆ L(a b) -/
theorem seq2_complete (a b : NFA) (ha : a.WF) (u v : List UInt8)
    (hu : a.Lang u) (hv : b.Lang v) : (seq2 a b).Lang (u ++ v) := by
  unfold NFA.Lang at *
  have h1 := path_left a b hu
  have h2 := path_right a b ha hv
  have hbridge : (gr (seq2 a b).states).eps a.stop (b.start + a.states.length) := by
    show (gr (addEps _ _ _)).eps _ _
    rw [eps_addEps _ _ _ _ _ (by simp; have := ha.2.1; omega)]
    exact Or.inr ⟨rfl, rfl⟩
  exact Path.trans h1 (Path.eps hbridge h2)


/-! ### soundness: every accepted word splits -/

def inA (a : NFA) (s : Nat) : Prop := s < a.states.length
def inB (a b : NFA) (s : Nat) : Prop := a.states.length ≤ s ∧ s < a.states.length + b.states.length

/-- an edge of the merged graph that leaves a left state is an edge of `a` -/
theorem edge_from_left (a b : NFA) {s t : Nat} {c : UInt8} (hs : inA a s)
    (h : (gr (seq2 a b).states).edge s c t) : (gr a.states).edge s c t := by
  have h' : (gr (a.states ++ b.states.map (NState.shift a.states.length))).edge s c t := (edge_addEps _ _ _ _ _ _).mp h
  obtain ⟨st, h1, h2⟩ := h'
  rw [gr_append_left _ _ _ hs] at h1
  exact ⟨st, h1, h2⟩

theorem eps_from_left (a b : NFA) (ha : a.WF) {s t : Nat} (hs : inA a s)
    (h : (gr (seq2 a b).states).eps s t) :
    (gr a.states).eps s t ∨ (s = a.stop ∧ t = b.start + a.states.length) := by
  have hlen : a.stop < (a.states ++ b.states.map (NState.shift a.states.length)).length := by
    have := ha.2.1; simp; omega
  have h' := (eps_addEps _ _ _ _ _ hlen).mp h
  rcases h' with ⟨st, h1, h2⟩ | h'
  · rw [gr_append_left _ _ _ hs] at h1
    exact Or.inl ⟨st, h1, h2⟩
  · exact Or.inr h'

/-- an edge of the merged graph that leaves a right state is a shifted edge of `b` -/
theorem edge_from_right (a b : NFA) {s t : Nat} {c : UInt8} (hs : inB a b s)
    (h : (gr (seq2 a b).states).edge s c t) :
    ∃ t', t = t' + a.states.length ∧ (gr b.states).edge (s - a.states.length) c t' := by
  have h' : (gr (a.states ++ b.states.map (NState.shift a.states.length))).edge s c t := (edge_addEps _ _ _ _ _ _).mp h
  obtain ⟨st, h1, h2⟩ := h'
  rw [gr_append_right _ _ _ hs.1, List.getElem?_map] at h1
  cases hb : b.states[s - a.states.length]? with
  | none => simp [hb] at h1
  | some st0 =>
    simp [hb] at h1; subst h1
    simp only [NState.shift, List.mem_map] at h2
    obtain ⟨p, hp, e⟩ := h2
    cases e
    exact ⟨p.2, rfl, st0, hb, hp⟩

theorem eps_from_right (a b : NFA) (ha : a.WF) {s t : Nat} (hs : inB a b s)
    (h : (gr (seq2 a b).states).eps s t) :
    ∃ t', t = t' + a.states.length ∧ (gr b.states).eps (s - a.states.length) t' := by
  have hstop := ha.2.1
  have hlen : a.stop < (a.states ++ b.states.map (NState.shift a.states.length)).length := by simp; omega
  have h' := (eps_addEps _ _ _ _ _ hlen).mp h
  rcases h' with ⟨st, h1, h2⟩ | ⟨h1, _⟩
  · rw [gr_append_right _ _ _ hs.1, List.getElem?_map] at h1
    cases hb : b.states[s - a.states.length]? with
    | none => simp [hb] at h1
    | some st0 =>
      simp [hb] at h1; subst h1
      simp only [NState.shift, List.mem_map] at h2
      obtain ⟨t', ht', e⟩ := h2
      exact ⟨t', e.symm, st0, hb, ht'⟩
  · -- the bridge leaves a left state
    have := hs.1; omega

theorem bridged (a b : NFA) (ha : a.WF) (hb : b.WF) :
    Bridged (gr (seq2 a b).states) (inA a) (inB a b) a.stop (b.start + a.states.length) where
  disj := by intro s h1 h2; unfold inA at h1; unfold inB at h2; omega
  edgeA := by
    intro s c t hs h
    obtain ⟨st, h1, h2⟩ := edge_from_left a b hs h
    exact (ha.2.2 s st h1).1 (c, t) h2
  edgeB := by
    intro s c t hs h
    obtain ⟨t', e, st, h1, h2⟩ := edge_from_right a b hs h
    have := (hb.2.2 _ st h1).1 (c, t') h2
    subst e; unfold inB; simp at this ⊢; omega
  epsA := by
    intro s t hs h
    rcases eps_from_left a b ha hs h with ⟨st, h1, h2⟩ | h'
    · exact Or.inl ((ha.2.2 s st h1).2 t h2)
    · exact Or.inr h'
  epsB := by
    intro s t hs h
    obtain ⟨t', e, st, h1, h2⟩ := eps_from_right a b ha hs h
    have := (hb.2.2 _ st h1).2 t' h2
    subst e; unfold inB; omega
  ha := ha.2.1
  hb := by have := hb.1; unfold inB; omega

/-- the left half of the split is a path of `a` -/
theorem within_to_left (a b : NFA) (ha : a.WF) {s t : Nat} {w}
    (h : Path ((gr (seq2 a b).states).within (inA a) a.stop (b.start + a.states.length)) s w t) :
    Path (gr a.states) s w t := by
  induction h with
  | refl s => exact Path.refl s
  | eps he _ ih =>
    obtain ⟨hs, _, he, hnb⟩ := he
    rcases eps_from_left a b ha hs he with h | h
    · exact Path.eps h ih
    · exact absurd h hnb
  | sym he _ ih =>
    obtain ⟨hs, _, he⟩ := he
    exact Path.sym (edge_from_left a b hs he) ih

/-- the right half of the split, un-shifted, is a path of `b` -/
theorem right_to_b (a b : NFA) (ha : a.WF) (hb : b.WF) {s t : Nat} {w}
    (h : Path (gr (seq2 a b).states) s w t) (hs : inB a b s) :
    Path (gr b.states) (s - a.states.length) w (t - a.states.length) := by
  induction h with
  | refl s => exact Path.refl _
  | @eps s t u w he hp ih =>
    obtain ⟨t', e, h'⟩ := eps_from_right a b ha hs he
    have ht : inB a b t := (bridged a b ha hb).epsB _ _ hs he
    have := ih ht
    subst e
    simp only [Nat.add_sub_cancel] at this
    exact Path.eps h' this
  | @sym s t u c w he hp ih =>
    obtain ⟨t', e, h'⟩ := edge_from_right a b hs he
    have ht : inB a b t := (bridged a b ha hb).edgeB _ _ _ hs he
    have := ih ht
    subst e
    simp only [Nat.add_sub_cancel] at this
    exact Path.sym h' this

/-- C15_language, case `sequence` on the numbered model: L(a b) = L(a)·L(b) -/
theorem seq2_lang (a b : NFA) (ha : a.WF) (hb : b.WF) (w : List UInt8) :
    (seq2 a b).Lang w ↔ ∃ u v, w = u ++ v ∧ a.Lang u ∧ b.Lang v := by
  constructor
  · intro h
    have hbr := bridged a b ha hb
    obtain ⟨u, v, e, p1, p2⟩ := seq_split hbr h (show inA a a.start from ha.1)
      (show inB a b (b.stop + a.states.length) by have := hb.2.1; unfold inB; omega)
    refine ⟨u, v, e, within_to_left a b ha p1, ?_⟩
    have := right_to_b a b ha hb p2 (show inB a b (b.start + a.states.length) by have := hb.1; unfold inB; omega)
    have hstop : (seq2 a b).stop - a.states.length = b.stop := by simp [seq2]
    simpa [NFA.Lang, hstop] using this
  · rintro ⟨u, v, e, hu, hv⟩
    subst e
    exact seq2_complete a b ha u v hu hv

end NFAnum
