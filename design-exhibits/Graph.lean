namespace Graph

structure Gr (σ : Type) where
  edge : σ → UInt8 → σ → Prop
  eps : σ → σ → Prop

inductive Path {σ} (g : Gr σ) : σ → List UInt8 → σ → Prop
  | refl (s : σ) : Path g s [] s
  | eps {s t u : σ} {w : List UInt8} : g.eps s t → Path g t w u → Path g s w u
  | sym {s t u : σ} {b : UInt8} {w : List UInt8} : g.edge s b t → Path g t w u → Path g s (b :: w) u

theorem Path.trans {σ} {g : Gr σ} {s t r : σ} {u v : List UInt8}
    (h1 : Path g s u t) (h2 : Path g t v r) : Path g s (u ++ v) r := by
  induction h1 with
  | refl s => simpa using h2
  | eps he _ ih => exact Path.eps he (ih h2)
  | sym he _ ih => exact Path.sym he (ih h2)

/-- monotonicity: more edges, more paths -/
theorem Path.mono {σ} {g g' : Gr σ} (he : ∀ s b t, g.edge s b t → g'.edge s b t)
    (hp : ∀ s t, g.eps s t → g'.eps s t) {s t : σ} {w} (h : Path g s w t) : Path g' s w t := by
  induction h with
  | refl s => exact Path.refl s
  | eps h1 _ ih => exact Path.eps (hp _ _ h1) ih
  | sym h1 _ ih => exact Path.sym (he _ _ _ h1) ih

def Gr.addEps {σ} (g : Gr σ) (a b : σ) : Gr σ :=
  { edge := g.edge, eps := fun s t => g.eps s t ∨ (s = a ∧ t = b) }

inductive Plus (L : List UInt8 → Prop) : List UInt8 → Prop
  | one {w} : L w → Plus L w
  | more {u v} : L u → Plus L v → Plus L (u ++ v)

/-- `NFA::some`: adding stop →ε start yields exactly L⁺, whatever the shape of the operand -/
theorem some_lang {σ} (g : Gr σ) (start stop : σ) (w : List UInt8) :
    Path (g.addEps stop start) start w stop ↔ Plus (fun w => Path g start w stop) w := by
  constructor
  · -- every path of the extended graph that ends in `stop` splits at the uses of the new edge
    have key : ∀ s w t, Path (g.addEps stop start) s w t → t = stop →
        Path g s w stop ∨ ∃ u v, Path g s u stop ∧ Plus (fun w => Path g start w stop) v ∧ w = u ++ v := by
      intro s w t h
      induction h with
      | refl s => intro ht; subst ht; exact Or.inl (Path.refl _)
      | @eps s t u w he _ ih =>
        intro hu
        rcases he with he | ⟨hs, ht⟩
        · rcases ih hu with h | ⟨u', v, h1, h2, h3⟩
          · exact Or.inl (Path.eps he h)
          · exact Or.inr ⟨u', v, Path.eps he h1, h2, h3⟩
        · subst hs; subst ht
          rcases ih hu with h | ⟨u', v, h1, h2, h3⟩
          · exact Or.inr ⟨[], w, Path.refl _, Plus.one h, by simp⟩
          · exact Or.inr ⟨[], w, Path.refl _, by rw [h3]; exact Plus.more h1 h2, by simp⟩
      | @sym s t u b w he _ ih =>
        intro hu
        rcases ih hu with h | ⟨u', v, h1, h2, h3⟩
        · exact Or.inl (Path.sym he h)
        · exact Or.inr ⟨b :: u', v, Path.sym he h1, h2, by simp [h3]⟩
    intro h
    rcases key _ _ _ h rfl with h | ⟨u, v, h1, h2, h3⟩
    · exact Plus.one h
    · rw [h3]; exact Plus.more h1 h2
  · intro h
    have up : ∀ {s t : σ} {w : List UInt8}, Path g s w t → Path (g.addEps stop start) s w t := by
      intro s t w hp
      exact Path.mono (g := g) (g' := g.addEps stop start) (fun _ _ _ h => h) (fun _ _ h => Or.inl h) hp
    induction h with
    | one h => exact up h
    | more h1 _ ih =>
      exact Path.trans (up h1) (Path.eps (Or.inr ⟨rfl, rfl⟩) ih)

/-- two blocks A, B; all edges stay inside a block except one bridge a →ε b (a ∈ A, b ∈ B):
    the shape of `NFA::sequence` after `merge_states`. -/
structure Bridged {σ} (g : Gr σ) (A B : σ → Prop) (a b : σ) : Prop where
  disj : ∀ s, A s → B s → False
  edgeA : ∀ s c t, A s → g.edge s c t → A t
  edgeB : ∀ s c t, B s → g.edge s c t → B t
  epsA : ∀ s t, A s → g.eps s t → A t ∨ (s = a ∧ t = b)
  epsB : ∀ s t, B s → g.eps s t → B t
  ha : A a
  hb : B b

/-- paths that start in B stay in B -/
theorem Bridged.stayB {σ} {g : Gr σ} {A B a b} (hb : Bridged g A B a b) {s t w}
    (h : Path g s w t) (hs : B s) : B t := by
  induction h with
  | refl s => exact hs
  | eps he _ ih => exact ih (hb.epsB _ _ hs he)
  | sym he _ ih => exact ih (hb.edgeB _ _ _ hs he)

/-- the restriction of g to a block, minus the bridge -/
def Gr.within {σ} (g : Gr σ) (A : σ → Prop) (a b : σ) : Gr σ :=
  { edge := fun s c t => A s ∧ A t ∧ g.edge s c t
    eps := fun s t => A s ∧ A t ∧ g.eps s t ∧ ¬ (s = a ∧ t = b) }

/-- `NFA::sequence`: a path from block A to block B crosses the bridge exactly once -/
theorem seq_split {σ} {g : Gr σ} {A B a b} (hbr : Bridged g A B a b) {s t w}
    (h : Path g s w t) (hs : A s) (ht : B t) :
    ∃ u v, w = u ++ v ∧ Path (g.within A a b) s u a ∧ Path g b v t := by
  induction h with
  | refl s => exact absurd ht (fun h => hbr.disj _ hs h)
  | @eps s t' u w he hp ih =>
    rcases hbr.epsA _ _ hs he with hA | ⟨h1, h2⟩
    · obtain ⟨u', v, e, p1, p2⟩ := ih hA ht
      by_cases hbridge : s = a ∧ t' = b
      · -- an ε-edge a → b that also stays in A cannot exist: b ∈ B
        exact absurd hA (fun h => hbr.disj _ h (hbridge.2 ▸ hbr.hb))
      · exact ⟨u', v, e, Path.eps ⟨hs, hA, he, hbridge⟩ p1, p2⟩
    · subst h1; subst h2
      exact ⟨[], w, by simp, Path.refl _, hp⟩
  | @sym s t' u c w he _ ih =>
    have hA := hbr.edgeA _ _ _ hs he
    obtain ⟨u', v, e, p1, p2⟩ := ih hA ht
    exact ⟨c :: u', v, by simp [e], Path.sym ⟨hs, hA, he⟩ p1, p2⟩

end Graph
