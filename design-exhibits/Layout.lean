namespace Layout

/-- what `Cell::layout` distinguishes (zero-sized cells are skipped before; `\r` is outside the
    property's domain) -/
inductive C where
  | nl
  | tab
  | item (w h : Nat)

/-- cursor and tracked size -/
structure S where
  row : Nat
  col : Nat
  sw : Nat
  sh : Nat
deriving DecidableEq

/-- `Cell::layout` for one cell at maximum width `W`; returns the position the cell is placed at -/
def step (W : Nat) (wraps : Bool) (s : S) : C → S × Option (Nat × Nat)
  | .nl => ({ row := s.row + 1, col := 0, sw := max s.sw s.col, sh := max s.sh (s.row + 1) }, none)
  | .tab =>
    let col' := s.col + min (8 - s.col % 8) (W - s.col)
    ({ s with col := col', sw := max s.sw col' }, none)
  | .item w h =>
    if s.col + w ≤ W then
      ({ row := s.row, col := s.col + w, sw := max s.sw (s.col + w), sh := max s.sh (s.row + h) },
        some (s.row, s.col))
    else if !wraps then (s, none)
    else
      ({ row := s.row + 1, col := min w W, sw := max s.sw (min w W),
         sh := max (max s.sh (s.row + 1)) (s.row + 1 + h) }, some (s.row + 1, 0))

def run (W : Nat) (wraps : Bool) (s : S) : List C → S × List (Option (Nat × Nat))
  | [] => (s, [])
  | c :: cs =>
    let r := step W wraps s c
    let t := run W wraps r.1 cs
    (t.1, r.2 :: t.2)

theorem step_sw_mono (W wraps s c) : s.sw ≤ (step W wraps s c).1.sw := by
  cases c with
  | nl => simp [step]; omega
  | tab => simp [step]; omega
  | item w h =>
    simp only [step]
    split
    · simp; omega
    · split
      · simp
      · simp; omega

theorem run_sw_mono (W wraps) (cs : List C) (s : S) : s.sw ≤ (run W wraps s cs).1.sw := by
  induction cs generalizing s with
  | nil => simp [run]
  | cons c cs ih =>
    simp only [run]
    exact Nat.le_trans (step_sw_mono W wraps s c) (ih _)

/-- one cell: if the width tracked after the cell fits into `W2 ≤ W`, laying out at `W2` does the same -/
theorem step_agree (W W2 : Nat) (wraps : Bool) (s : S) (c : C)
    (h2 : W2 ≤ W) (hfit : (step W wraps s c).1.sw ≤ W2) :
    step W2 wraps s c = step W wraps s c := by
  cases c with
  | nl => simp [step]
  | tab =>
    simp only [step] at hfit ⊢
    have : min (8 - s.col % 8) (W2 - s.col) = min (8 - s.col % 8) (W - s.col) := by omega
    rw [this]
  | item w h =>
    simp only [step] at hfit ⊢
    by_cases hf : s.col + w ≤ W
    · simp only [hf, if_true] at hfit ⊢
      have : s.col + w ≤ W2 := by omega
      simp [this]
    · simp only [hf, if_false] at hfit ⊢
      have hf2 : ¬ s.col + w ≤ W2 := by omega
      simp only [hf2, if_false]
      cases wraps with
      | false => simp
      | true =>
        simp only [Bool.not_true, Bool.false_eq_true, if_false] at hfit ⊢
        have : min w W2 = min w W := by omega
        rw [this]

/-- C09_layout_agrees: measure at `W`, obtain width `W'`; rendering at any `W2` with `W' ≤ W2 ≤ W`
    puts every cell at the same position (and ends in the same cursor and size) -/
theorem run_agree (W W2 : Nat) (wraps : Bool) (cs : List C) (s : S)
    (h2 : W2 ≤ W) (hfit : (run W wraps s cs).1.sw ≤ W2) :
    run W2 wraps s cs = run W wraps s cs := by
  induction cs generalizing s with
  | nil => simp [run]
  | cons c cs ih =>
    simp only [run] at hfit ⊢
    have hstep : (step W wraps s c).1.sw ≤ W2 :=
      Nat.le_trans (run_sw_mono W wraps cs _) hfit
    rw [step_agree W W2 wraps s c h2 hstep, ih _ hfit]

/-- every placed cell lies inside the reported size (so a surface of that size shows it) -/
theorem step_inside (W wraps s c) (hc : ∀ w h, c = .item w h → 1 ≤ h) :
    ∀ p, (step W wraps s c).2 = some p → p.1 < (step W wraps s c).1.sh := by
  intro p hp
  cases c with
  | nl => simp [step] at hp
  | tab => simp [step] at hp
  | item w h =>
    have := hc w h rfl
    simp only [step] at hp ⊢
    split at hp
    · rename_i hf
      simp only [hf, if_true]
      cases hp; simp; omega
    · rename_i hf
      simp only [hf, if_false]
      split at hp
      · cases hp
      · rename_i hw
        simp only [hw, if_false]
        cases hp; simp; omega

end Layout
