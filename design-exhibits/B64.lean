namespace B64

/-- `BASE64_ENCODE` as numeric literals (regenerated from the source in the framework) -/
def encTab : List Nat :=
  [65,66,67,68,69,70,71,72,73,74,75,76,77,78,79,80,81,82,83,84,85,86,87,88,89,90,
   97,98,99,100,101,102,103,104,105,106,107,108,109,110,111,112,113,114,115,116,117,118,119,120,121,122,
   48,49,50,51,52,53,54,55,56,57,43,47]

def enc (i : Nat) : Nat := encTab.getD i 0

/-- `BASE64_DECODE`, by ranges (0 for anything outside the alphabet, as in the 256-entry table) -/
def dec (c : Nat) : Nat :=
  if 65 ≤ c ∧ c ≤ 90 then c - 65
  else if 97 ≤ c ∧ c ≤ 122 then c - 97 + 26
  else if 48 ≤ c ∧ c ≤ 57 then c - 48 + 52
  else if c = 43 then 62
  else if c = 47 then 63
  else 0

/-- C14_tables: decode inverts encode on all 64 sextets; the alphabet avoids '=' -/
theorem dec_enc : ∀ i : Fin 64, dec (enc i.val) = i.val := by decide
theorem enc_ne_pad : ∀ i : Fin 64, enc i.val ≠ 61 := by decide

/-! bridging lemmas: the `u8` shift/or/and expressions of the source, as arithmetic on naturals.
    Quantified over `Fin 256` so that the kernel can enumerate them. -/
def u8 (n : Nat) : UInt8 := UInt8.ofNat n

theorem enc_s0 : ∀ a : Fin 256, ((u8 a) >>> 2).toNat = a.val / 4 := by decide +kernel
theorem enc_s3 : ∀ a : Fin 256, ((u8 a) &&& 0x3f).toNat = a.val % 64 := by decide +kernel
theorem enc_s1 : ∀ a b : Fin 256,
    ((((u8 a) <<< 4) ||| ((u8 b) >>> 4)) &&& 0x3f).toNat = (a.val % 4) * 16 + b.val / 16 := by decide +kernel
theorem enc_s2 : ∀ a b : Fin 256,
    ((((u8 a) <<< 2) ||| ((u8 b) >>> 6)) &&& 0x3f).toNat = (a.val % 16) * 4 + b.val / 64 := by decide +kernel
theorem dec_b0 : ∀ a b : Fin 64, (((u8 a) <<< 2) ||| ((u8 b) >>> 4)).toNat = a.val * 4 + b.val / 16 := by decide +kernel
theorem dec_b1 : ∀ a b : Fin 64, (((u8 a) <<< 4) ||| ((u8 b) >>> 2)).toNat = (a.val % 16) * 16 + b.val / 4 := by decide +kernel
theorem dec_b2 : ∀ a b : Fin 64, (((u8 a) <<< 6) ||| (u8 b)).toNat = (a.val % 4) * 64 + b.val := by decide +kernel

/-- the arithmetic round trip of one group, on naturals: pure `omega` -/
theorem group_roundtrip (b0 b1 b2 : Nat) (h0 : b0 < 256) (h1 : b1 < 256) (h2 : b2 < 256) :
    let s0 := b0 / 4
    let s1 := (b0 % 4) * 16 + b1 / 16
    let s2 := (b1 % 16) * 4 + b2 / 64
    let s3 := b2 % 64
    s0 < 64 ∧ s1 < 64 ∧ s2 < 64 ∧ s3 < 64 ∧
    s0 * 4 + s1 / 16 = b0 ∧ (s1 % 16) * 16 + s2 / 4 = b1 ∧ (s2 % 4) * 64 + s3 = b2 := by
  omega

end B64
