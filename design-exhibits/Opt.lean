import Mathlib.Tactic.Linarith
import Mathlib.Tactic.Ring
import Mathlib.Algebra.Order.Field.Basic

namespace Opt
variable {K : Type} [Field K] [LinearOrder K] [IsStrictOrderedRing K]

/-- nearest grey to the mean is the nearest grey in Euclidean distance (C20, diagonal term) -/
theorem grey_decomp (r g b x : K) :
    (r - x)^2 + (g - x)^2 + (b - x)^2
      = ((r - (r+g+b)/3)^2 + (g - (r+g+b)/3)^2 + (b - (r+g+b)/3)^2) + 3 * ((r+g+b)/3 - x)^2 := by
  ring

theorem grey_opt (r g b x y : K) (h : |(r+g+b)/3 - x| ≤ |(r+g+b)/3 - y|) :
    (r - x)^2 + (g - x)^2 + (b - x)^2 ≤ (r - y)^2 + (g - y)^2 + (b - y)^2 := by
  rw [grey_decomp r g b x, grey_decomp r g b y]
  have := sq_le_sq.mpr h
  linarith

/-- per-channel nearest gives the nearest cube entry (C20, separable term) -/
theorem cube_opt (r g b cr cg cb dr dg db : K)
    (hr : |r - cr| ≤ |r - dr|) (hg : |g - cg| ≤ |g - dg|) (hb : |b - cb| ≤ |b - db|) :
    (r - cr)^2 + (g - cg)^2 + (b - cb)^2 ≤ (r - dr)^2 + (g - dg)^2 + (b - db)^2 := by
  have h1 := sq_le_sq.mpr hr
  have h2 := sq_le_sq.mpr hg
  have h3 := sq_le_sq.mpr hb
  linarith

/-- C07: injectivity of the offset map under the stride invariant -/
theorem offset_inj (rs cs w r1 c1 r2 c2 : ℕ) (hcs : 0 < cs) (hinv : cs * w ≤ rs)
    (h1 : c1 < w) (h2 : c2 < w) (h : r1 * rs + c1 * cs = r2 * rs + c2 * cs) : r1 = r2 ∧ c1 = c2 := by
  have hc1 : c1 * cs < rs := by nlinarith
  have hc2 : c2 * cs < rs := by nlinarith
  have hr : r1 = r2 := by
    rcases Nat.lt_trichotomy r1 r2 with hlt | heq | hgt
    · exfalso; nlinarith
    · exact heq
    · exfalso; nlinarith
  subst hr
  refine ⟨rfl, ?_⟩
  have : c1 * cs = c2 * cs := by omega
  exact Nat.eq_of_mul_eq_mul_right hcs this
end Opt
