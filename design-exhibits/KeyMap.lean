namespace KeyMap

abbrev Key := Nat

/-- `KeyMap<V>`: BTreeMap<Key, Result<V, KeyMap<V>>>; association list, order irrelevant for lookup -/
inductive Node (V : Type) where
  | val (v : V)
  | sub (m : List (Key × Node V))

abbrev Map (V : Type) := List (Key × Node V)

def get {V} (m : Map V) (k : Key) : Option (Node V) :=
  match m with
  | [] => none
  | (k', n) :: r => if k' = k then some n else get r k

def set {V} (m : Map V) (k : Key) (n : Node V) : Map V :=
  match m with
  | [] => [(k, n)]
  | (k', n') :: r => if k' = k then (k, n) :: r else (k', n') :: set r k n

theorem get_set {V} (m : Map V) (k k' : Key) (n : Node V) :
    get (set m k n) k' = if k = k' then some n else get m k' := by
  induction m with
  | nil => simp [set, get]
  | cons p r ih =>
    obtain ⟨k0, n0⟩ := p
    by_cases h : k0 = k
    · subst h
      by_cases h2 : k0 = k' <;> simp [set, get, h2]
    · by_cases h' : k0 = k'
      · subst h'; simp [set, get, h, Ne.symm h]
      · simp [set, get, h, h', ih]

inductive Res (V : Type) | success (v : V) | failure | continue_
deriving DecidableEq

/-- `KeyMap::lookup` -/
def lookup {V} (m : Map V) : List Key → Res V
  | [] => .continue_
  | k :: ks =>
    match get m k with
    | none => .failure
    | some (.val v) => if ks = [] then .success v else .failure
    | some (.sub m') => lookup m' ks

/-- `KeyMap::register` (chord non-empty): descend along all but the last key, replacing bound values on
    the way by fresh sub-maps, then insert the value at the last key (replacing value *or* sub-map) -/
def register {V} (m : Map V) (chord : List Key) (v : V) : Map V :=
  match chord with
  | [] => m
  | [k] => set m k (.val v)
  | k :: k2 :: ks =>
    let child : Map V := match get m k with
      | some (.sub m') => m'
      | _ => []
    set m k (.sub (register child (k2 :: ks) v))

/-- specification: a chord `c` is superseded by a later registration of `c'` iff one is a prefix of the other -/
def related (a b : List Key) : Bool := a.isPrefixOf b || b.isPrefixOf a

/-- the lookup answer the dictionary specification gives after registering `c ↦ v` on top of `f` -/
def specAfter {V} (f : List Key → Res V) (c : List Key) (v : V) (q : List Key) : Res V :=
  if q = c then .success v
  else if q.isPrefixOf c then .continue_           -- proper prefix of the new chord
  else if c.isPrefixOf q then .failure             -- extension of a bound chord
  else f q

theorem isPrefixOf_cons_cons (a b : Key) (x y : List Key) :
    (a :: x).isPrefixOf (b :: y) = (decide (a = b) && x.isPrefixOf y) := by
  by_cases h : a = b <;> simp [List.isPrefixOf, h]

/-- C18_refines, one step: lookup after `register` is the specification's answer, for every non-empty
    query chord and every non-empty registered chord -/
theorem lookup_register {V} (m : Map V) (c : List Key) (v : V) (q : List Key)
    (hc : c ≠ []) (hq : q ≠ []) :
    lookup (register m c v) q = specAfter (lookup m) c v q := by
  induction c generalizing m q with
  | nil => exact absurd rfl hc
  | cons k ks ih =>
    cases q with
    | nil => exact absurd rfl hq
    | cons qk qs =>
      cases ks with
      | nil =>
        -- single-key chord
        simp only [register, lookup, get_set]
        by_cases hk : k = qk
        · subst hk
          by_cases hqs : qs = []
          · subst hqs; simp [specAfter]
          · simp [specAfter, hqs, List.isPrefixOf]
        · have hne : ¬ (qk :: qs = [k]) := by
            intro h; injection h with h1 _; exact hk h1.symm
          simp [hk, specAfter, hne, List.isPrefixOf, Ne.symm hk]
          rfl
      | cons k2 ks' =>
        simp only [register, lookup, get_set]
        by_cases hk : k = qk
        · subst hk
          simp only [if_true]
          by_cases hqs : qs = []
          · -- the query is the first key only: a proper prefix of the new chord
            subst hqs
            simp [lookup, specAfter, List.isPrefixOf]
          · have := ih (m := match get m k with | some (.sub m') => m' | _ => []) (q := qs) (by simp) hqs
            rw [this]
            -- relate the sub-map's specification to the parent's
            simp only [specAfter, List.cons.injEq, true_and, isPrefixOf_cons_cons, decide_true, Bool.true_and]
            by_cases h1 : qs = k2 :: ks'
            · simp [h1]
            · simp only [h1, if_false]
              by_cases h2 : qs.isPrefixOf (k2 :: ks') = true
              · simp [h2]
              · simp only [h2]
                by_cases h3 : (k2 :: ks').isPrefixOf qs = true
                · simp [h3]
                · simp only [h3]
                  -- untouched: the old map answers, through its own sub-map (or fails if there was none)
                  cases hg : get m k with
                  | none => cases qs with
                    | nil => exact absurd rfl hqs
                    | cons a as => simp [lookup, get, hg]
                  | some n => cases n with
                    | val v0 => cases qs with
                      | nil => exact absurd rfl hqs
                      | cons a as => simp [lookup, get, hg]
                    | sub m' => simp [lookup, hg]
        · have hne : ¬ (qk :: qs = k :: k2 :: ks') := by
            intro h; injection h with h1 _; exact hk h1.symm
          simp [hk, specAfter, hne, isPrefixOf_cons_cons, Ne.symm hk]
          rfl

end KeyMap
