import Mathlib.Tactic.Linarith

namespace KD

abbrev Pt := Fin 3 → Int

def dist (a b : Pt) : Int := (a 0 - b 0)^2 + (a 1 - b 1)^2 + (a 2 - b 2)^2

inductive T where
  | leaf
  | node (c : Pt) (idx : Nat) (dim : Fin 3) (l r : T)

def T.Mem (p : Pt) : T → Prop
  | .leaf => False
  | .node c _ _ l r => p = c ∨ l.Mem p ∨ r.Mem p

/-- what `build_rec` guarantees: left ≤ split ≤ right on the split dimension (duplicates on either side) -/
def T.Ordered : T → Prop
  | .leaf => True
  | .node c _ d l r => (∀ p, l.Mem p → p d ≤ c d) ∧ (∀ p, r.Mem p → c d ≤ p d) ∧ l.Ordered ∧ r.Ordered

/-- one level of `KDTree::find_rec`, given the answers of the near and the far child.
    (The code does not search the far child when the plane test prunes it; its answer is then unused,
    so evaluating both children eagerly is observationally the same function.) -/
def combine (target c : Pt) (idx : Nat) (d : Fin 3) (near far : Option (Pt × Nat × Int)) : Pt × Nat × Int :=
  let nodeDist := dist target c
  let guess : Pt × Nat × Int :=
    match near with
    | none => (c, idx, nodeDist)
    | some (g, gi, gd) => if gd ≥ nodeDist then (c, idx, nodeDist) else (g, gi, gd)
  let otherDist := (target d - c d)^2
  if otherDist ≥ guess.2.2 then guess
  else
    match far with
    | none => guess
    | some (o, oi, od) => if od < guess.2.2 then (o, oi, od) else guess

def find (target : Pt) : T → Option (Pt × Nat × Int)
  | .leaf => none
  | .node c idx d l r =>
    if target d < c d then some (combine target c idx d (find target l) (find target r))
    else some (combine target c idx d (find target r) (find target l))

theorem sq_coord_le_dist (a b : Pt) (d : Fin 3) : (a d - b d)^2 ≤ dist a b := by
  unfold dist
  have h0 := sq_nonneg (a 0 - b 0); have h1 := sq_nonneg (a 1 - b 1); have h2 := sq_nonneg (a 2 - b 2)
  match d with
  | ⟨0, _⟩ => show (a 0 - b 0)^2 ≤ _; linarith
  | ⟨1, _⟩ => show (a 1 - b 1)^2 ≤ _; linarith
  | ⟨2, _⟩ => show (a 2 - b 2)^2 ≤ _; linarith

/-- the pruning bound: a point on the far side of the splitting plane is at least the plane distance away -/
theorem plane_bound_lt (t p : Pt) (d : Fin 3) (v : Int) (h1 : t d < v) (h2 : v ≤ p d) :
    (t d - v)^2 ≤ dist t p := by
  have : (t d - v)^2 ≤ (t d - p d)^2 := by nlinarith
  exact le_trans this (sq_coord_le_dist t p d)

theorem plane_bound_ge (t p : Pt) (d : Fin 3) (v : Int) (h1 : v ≤ t d) (h2 : p d ≤ v) :
    (t d - v)^2 ≤ dist t p := by
  have : (t d - v)^2 ≤ (t d - p d)^2 := by nlinarith
  exact le_trans this (sq_coord_le_dist t p d)

def Good (target : Pt) (S : Pt → Prop) (r : Option (Pt × Nat × Int)) : Prop :=
  match r with
  | none => ∀ p, ¬ S p
  | some (g, _, gd) => S g ∧ gd = dist target g ∧ ∀ p, S p → gd ≤ dist target p

/-- soundness of one level: `near` is searched exhaustively, `far` lies entirely beyond the plane -/
theorem combine_good (target c : Pt) (idx : Nat) (d : Fin 3) (N F : Pt → Prop) (near far)
    (hn : Good target N near) (hf : Good target F far)
    (hplane : ∀ p, F p → (target d - c d)^2 ≤ dist target p) :
    Good target (fun p => p = c ∨ N p ∨ F p) (some (combine target c idx d near far)) := by
  -- first the guess: best of {c} ∪ N
  have hguess : ∀ g, g = (match near with
        | none => (c, idx, dist target c)
        | some (g, gi, gd) => if gd ≥ dist target c then (c, idx, dist target c) else (g, gi, gd)) →
      (g.1 = c ∨ N g.1) ∧ g.2.2 = dist target g.1 ∧ (∀ p, (p = c ∨ N p) → g.2.2 ≤ dist target p) := by
    intro g hg
    cases near with
    | none =>
      subst hg
      refine ⟨Or.inl rfl, rfl, ?_⟩
      intro p hp; rcases hp with rfl | hp
      · exact le_refl _
      · exact absurd hp (hn p)
    | some x =>
      obtain ⟨g', gi, gd⟩ := x
      obtain ⟨h1, h2, h3⟩ := hn
      by_cases hge : gd ≥ dist target c
      · simp only [hge, if_true] at hg; subst hg
        refine ⟨Or.inl rfl, rfl, ?_⟩
        intro p hp; rcases hp with rfl | hp
        · exact le_refl _
        · exact le_trans hge (h3 p hp)
      · simp only [hge, if_false] at hg; subst hg
        refine ⟨Or.inr h1, h2, ?_⟩
        intro p hp; rcases hp with rfl | hp
        · exact le_of_lt (not_le.mp hge)
        · exact h3 p hp
  unfold combine
  simp only []
  generalize hgdef : (match near with
        | none => (c, idx, dist target c)
        | some (g, gi, gd) => if gd ≥ dist target c then (c, idx, dist target c) else (g, gi, gd)) = guess
  obtain ⟨hg1, hg2, hg3⟩ := hguess guess hgdef.symm
  have hmem : (fun p => p = c ∨ N p ∨ F p) guess.1 := by
    rcases hg1 with h | h
    · exact Or.inl h
    · exact Or.inr (Or.inl h)
  by_cases hprune : (target d - c d)^2 ≥ guess.2.2
  · simp only [hprune, if_true, Good]
    refine ⟨hmem, hg2, ?_⟩
    intro p hp
    rcases hp with h | h | h
    · exact hg3 p (Or.inl h)
    · exact hg3 p (Or.inr h)
    · exact le_trans hprune (hplane p h)
  · simp only [hprune, if_false]
    cases far with
    | none =>
      simp only [Good]
      refine ⟨hmem, hg2, ?_⟩
      intro p hp
      rcases hp with h | h | h
      · exact hg3 p (Or.inl h)
      · exact hg3 p (Or.inr h)
      · exact absurd h (hf p)
    | some x =>
      obtain ⟨o, oi, od⟩ := x
      obtain ⟨h1, h2, h3⟩ := hf
      by_cases hb : od < guess.2.2
      · simp only [hb, if_true, Good]
        refine ⟨Or.inr (Or.inr h1), h2, ?_⟩
        intro p hp
        rcases hp with h | h | h
        · exact le_trans (le_of_lt hb) (hg3 p (Or.inl h))
        · exact le_trans (le_of_lt hb) (hg3 p (Or.inr h))
        · exact h3 p h
      · simp only [hb, if_false, Good]
        refine ⟨hmem, hg2, ?_⟩
        intro p hp
        rcases hp with h | h | h
        · exact hg3 p (Or.inl h)
        · exact hg3 p (Or.inr h)
        · exact le_trans (not_lt.mp hb) (h3 p h)

/-- C13_kd_nearest (search part): on an ordered tree `find` returns a member at minimal distance -/
theorem find_min (target : Pt) (t : T) (ho : t.Ordered) : Good target t.Mem (find target t) := by
  induction t with
  | leaf => simp [find, Good, T.Mem]
  | node c idx d l r ihl ihr =>
    obtain ⟨hl, hr, hol, hor⟩ := ho
    simp only [find]
    by_cases hside : target d < c d
    · simp only [hside, if_true]
      have := combine_good target c idx d l.Mem r.Mem _ _ (ihl hol) (ihr hor)
        (fun p hp => plane_bound_lt target p d (c d) hside (hr p hp))
      simpa [T.Mem] using this
    · simp only [hside, if_false]
      have := combine_good target c idx d r.Mem l.Mem _ _ (ihr hor) (ihl hol)
        (fun p hp => plane_bound_ge target p d (c d) (not_lt.mp hside) (hl p hp))
      -- same set, children listed in the other order
      unfold Good at this ⊢
      obtain ⟨h1, h2, h3⟩ := this
      refine ⟨?_, h2, ?_⟩
      · rcases h1 with h | h | h
        · exact Or.inl h
        · exact Or.inr (Or.inr h)
        · exact Or.inr (Or.inl h)
      · intro p hp
        rcases hp with h | h | h
        · exact h3 p (Or.inl h)
        · exact h3 p (Or.inr (Or.inr h))
        · exact h3 p (Or.inr (Or.inl h))

end KD
