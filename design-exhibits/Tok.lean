namespace Tok

structure Auto (σ : Type) where
  start : σ
  step : σ → UInt8 → Option σ
  acc : σ → Bool
  term : σ → Bool

inductive Item (σ : Type) where
  | tok (bytes : List UInt8) (q : σ)
  | raw (bytes : List UInt8)

def Item.bytes {σ} : Item σ → List UInt8
  | .tok b _ => b
  | .raw b => b

structure St (σ : Type) where
  q : σ
  buf : List UInt8
  cand : Option ({n : Nat // 0 < n} × σ)

@[reducible] def fresh {σ} (A : Auto σ) : St σ := { q := A.start, buf := [], cand := none }

theorem lex_lt {a b c d : Nat} (h : a < c ∨ (a ≤ c ∧ b < d)) :
    Prod.Lex (fun x y : Nat => x < y) (fun x y : Nat => x < y) (a, b) (c, d) := by
  rcases h with h | ⟨h1, h2⟩
  · exact Prod.Lex.left _ _ h
  · rcases Nat.lt_or_eq_of_le h1 with h | h
    · exact Prod.Lex.left _ _ h
    · subst h; exact Prod.Lex.right _ h2

/-- the decoder as a machine over one forward stream (rescheduled bytes are put back in front) -/
def go {σ} (A : Auto σ) (s : St σ) (stream : List UInt8) : List (Item σ) × St σ :=
  match stream with
  | [] => ([], s)
  | b :: rest =>
    match A.step s.q b with
    | some q' =>
      if A.acc q' then
        if A.term q' then
          let r := go A (fresh A) rest
          (Item.tok (s.buf ++ [b]) q' :: r.1, r.2)
        else
          go A { q := q', buf := s.buf ++ [b], cand := some (⟨s.buf.length + 1, by omega⟩, q') } rest
      else
        go A { q := q', buf := s.buf ++ [b], cand := s.cand } rest
    | none =>
      match s.cand with
      | some (n, qc) =>
        if n.val ≤ s.buf.length then
          let r := go A (fresh A) (s.buf.drop n.val ++ b :: rest)
          (Item.tok (s.buf.take n.val) qc :: r.1, r.2)
        else ([], s)  -- unreachable under `Inv`
      | none =>
        if s.buf.length = 0 then
          let r := go A (fresh A) rest
          (Item.raw [b] :: r.1, r.2)
        else
          let r := go A (fresh A) (b :: rest)
          (Item.raw s.buf :: r.1, r.2)
termination_by (s.buf.length + stream.length, stream.length)
decreasing_by
  all_goals simp_wf
  all_goals (try have hn := n.property)
  all_goals (apply lex_lt; (try simp only [List.length_append, List.length_drop, List.length_cons, List.length_nil]); omega)

/-- δ* -/
def runA {σ} (A : Auto σ) (q : σ) : List UInt8 → Option σ
  | [] => some q
  | b :: r => (A.step q b).bind fun q' => runA A q' r

theorem runA_append {σ} (A : Auto σ) (q : σ) (u v : List UInt8) :
    runA A q (u ++ v) = (runA A q u).bind fun q' => runA A q' v := by
  induction u generalizing q with
  | nil => simp [runA]
  | cons b r ih =>
    simp only [List.cons_append, runA]
    cases h : A.step q b with
    | none => simp
    | some q' => simp [ih]

theorem runA_snoc {σ} (A : Auto σ) (q0 q q' : σ) (u : List UInt8) (b : UInt8)
    (h : runA A q0 u = some q) (hs : A.step q b = some q') : runA A q0 (u ++ [b]) = some q' := by
  rw [runA_append, h]; simp [runA, hs]

/-- invariant of a scanning state -/
structure Inv {σ} (A : Auto σ) (s : St σ) : Prop where
  live : runA A A.start s.buf = some s.q
  cand_le : ∀ n qc, s.cand = some (n, qc) → n.val ≤ s.buf.length
  cand_acc : ∀ n qc, s.cand = some (n, qc) → runA A A.start (s.buf.take n.val) = some qc ∧ A.acc qc = true

theorem inv_fresh {σ} (A : Auto σ) : Inv A (fresh A) :=
  ⟨by simp [runA], by simp, by simp⟩

def bytesOf {σ} (r : List (Item σ) × St σ) : List UInt8 := r.1.flatMap Item.bytes ++ r.2.buf

/-- every emitted token is an accepted word of the automaton, read from the start state -/
def ItemOk {σ} (A : Auto σ) : Item σ → Prop
  | .tok w q => w ≠ [] ∧ runA A A.start w = some q ∧ A.acc q = true
  | .raw w => w ≠ []

/-- C03_conservation + token soundness (prototype) -/
theorem conservation {σ} (A : Auto σ) (s : St σ) (stream : List UInt8) (hs : Inv A s) :
    bytesOf (go A s stream) = s.buf ++ stream ∧ Inv A (go A s stream).2
      ∧ ∀ it ∈ (go A s stream).1, ItemOk A it := by
  fun_induction go A s stream with
  | case1 s => simp [bytesOf, hs]
  | case2 s b rest q' hstep hacc hterm r ih =>
    obtain ⟨h1, h2, h3⟩ := ih (inv_fresh A)
    refine ⟨?_, h2, ?_⟩
    · simp only [bytesOf, List.flatMap_cons, Item.bytes, List.append_assoc] at h1 ⊢
      rw [h1]; simp
    · intro it hit
      simp only [List.mem_cons] at hit
      rcases hit with rfl | hit
      · exact ⟨by simp, runA_snoc A _ _ _ _ _ hs.live hstep, hacc⟩
      · exact h3 it hit
  | case3 s b rest q' hstep hacc hterm ih =>
    have hinv : Inv A { q := q', buf := s.buf ++ [b], cand := some (⟨s.buf.length + 1, by omega⟩, q') } := by
      refine ⟨runA_snoc A _ _ _ _ _ hs.live hstep, ?_, ?_⟩
      · intro n qc h
        simp only [Option.some.injEq, Prod.mk.injEq] at h
        obtain ⟨h1, _⟩ := h; subst h1; simp
      · intro n qc h
        simp only [Option.some.injEq, Prod.mk.injEq] at h
        obtain ⟨h1, h2⟩ := h; subst h1; subst h2
        have : (s.buf ++ [b]).take (s.buf.length + 1) = s.buf ++ [b] := by
          apply List.take_of_length_le; simp
        simp only [this]
        exact ⟨runA_snoc A _ _ _ _ _ hs.live hstep, hacc⟩
    obtain ⟨h1, h2, h3⟩ := ih hinv
    exact ⟨by simpa using h1, h2, h3⟩
  | case4 s b rest q' hstep hacc ih =>
    have hinv : Inv A { q := q', buf := s.buf ++ [b], cand := s.cand } := by
      refine ⟨runA_snoc A _ _ _ _ _ hs.live hstep, ?_, ?_⟩
      · intro n qc h; have := hs.cand_le n qc h; simp; omega
      · intro n qc h
        have hle := hs.cand_le n qc h
        have := hs.cand_acc n qc h
        simpa [List.take_append_of_le_length hle] using this
    obtain ⟨h1, h2, h3⟩ := ih hinv
    exact ⟨by simpa using h1, h2, h3⟩
  | case5 s b rest hstep n qc hc hle r ih =>
    obtain ⟨h1, h2, h3⟩ := ih (inv_fresh A)
    refine ⟨?_, h2, ?_⟩
    · simp only [bytesOf, List.flatMap_cons, Item.bytes, List.append_assoc, List.nil_append] at h1 ⊢
      rw [h1, ← List.append_assoc, List.take_append_drop]
    · intro it hit
      simp only [List.mem_cons] at hit
      rcases hit with rfl | hit
      · have := hs.cand_acc n qc hc
        refine ⟨?_, this.1, this.2⟩
        have hn := n.property
        intro h
        rcases List.take_eq_nil_iff.mp h with h0 | h0
        · omega
        · simp [h0] at hle; omega
      · exact h3 it hit
  | case6 s b rest hstep n qc hc hle =>
    exact absurd (hs.cand_le n qc hc) hle
  | case7 s b rest hstep hc hemp r ih =>
    obtain ⟨h1, h2, h3⟩ := ih (inv_fresh A)
    have hb : s.buf = [] := List.eq_nil_of_length_eq_zero hemp
    refine ⟨?_, h2, ?_⟩
    · simp only [bytesOf, List.flatMap_cons, Item.bytes, List.append_assoc, List.nil_append] at h1 ⊢
      rw [h1, hb]; simp
    · intro it hit
      simp only [List.mem_cons] at hit
      rcases hit with rfl | hit
      · simp [ItemOk]
      · exact h3 it hit
  | case8 s b rest hstep hc hemp r ih =>
    obtain ⟨h1, h2, h3⟩ := ih (inv_fresh A)
    refine ⟨?_, h2, ?_⟩
    · simp only [bytesOf, List.flatMap_cons, Item.bytes, List.append_assoc, List.nil_append] at h1 ⊢
      rw [h1]
    · intro it hit
      simp only [List.mem_cons] at hit
      rcases hit with rfl | hit
      · simp only [ItemOk]; intro h; simp [h] at hemp
      · exact h3 it hit

end Tok
