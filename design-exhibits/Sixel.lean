namespace Sixel

/-- what the band assembly emits for one colour, before bytes: a literal sixel or `!n` + sixel -/
inductive Tok where
  | lit (code : Nat)
  | rep (n : Nat) (code : Nat)

def Tok.expand : Tok → List Nat
  | .lit c => [c]
  | .rep n c => List.replicate n c

def expand (ts : List Tok) : List Nat := ts.flatMap Tok.expand

/-- emit `n` copies of `code` the way the source does: `!n code` when n > 3, else n literals -/
def emit (n code : Nat) : List Tok := if n > 3 then [.rep n code] else List.replicate n (.lit code)

theorem expand_emit (n code : Nat) : expand (emit n code) = List.replicate n code := by
  unfold emit expand
  split
  · simp [Tok.expand]
  · induction n with
    | zero => simp
    | succ n ih =>
      have : ¬ n > 3 := by omega
      simp only [List.replicate_succ, List.flatMap_cons, Tok.expand] at ih ⊢
      have := ih this
      simp [this]

/-- length of the run of items `(col+1, code), (col+2, code), …` at the head of `rest` -/
def runLen (col code : Nat) : List (Nat × Nat) → Nat
  | [] => 0
  | (c, k) :: rest => if c = col + 1 ∧ k = code then 1 + runLen (col + 1) code rest else 0

def dropRun (col code : Nat) : List (Nat × Nat) → List (Nat × Nat)
  | [] => []
  | (c, k) :: rest => if c = col + 1 ∧ k = code then dropRun (col + 1) code rest else (c, k) :: rest

theorem dropRun_length (col code : Nat) (l : List (Nat × Nat)) : (dropRun col code l).length ≤ l.length := by
  induction l generalizing col with
  | nil => simp [dropRun]
  | cons p r ih =>
    obtain ⟨c, k⟩ := p
    simp only [dropRun]
    split
    · have := ih (col + 1); simp; omega
    · simp

/-- one colour's line of a band, as in `SixelImageHandler::draw`: items are (column, sixel code),
    `offset` is the column the cursor is at -/
def encodeLine (offset : Nat) : List (Nat × Nat) → List Tok
  | [] => []
  | (col, code) :: rest =>
    let reps := 1 + runLen col code rest
    emit (col - offset) 63 ++ emit reps code ++ encodeLine (col + reps) (dropRun col code rest)
termination_by l => l.length
decreasing_by
  have := dropRun_length col code rest
  simp; omega

/-- the dense row the terminal ends up with: blanks (`?` = 63) up to each item, then its code -/
def dense (offset : Nat) : List (Nat × Nat) → List Nat
  | [] => []
  | (col, code) :: rest => List.replicate (col - offset) 63 ++ [code] ++ dense (col + 1) rest

/-- the run and what follows it, in dense form -/
theorem dense_run (col code : Nat) (rest : List (Nat × Nat)) :
    dense (col + 1) rest =
      List.replicate (runLen col code rest) code ++ dense (col + 1 + runLen col code rest) (dropRun col code rest) := by
  induction rest generalizing col with
  | nil => simp [dense, runLen, dropRun]
  | cons p r ih =>
    obtain ⟨c, k⟩ := p
    simp only [runLen, dropRun]
    split
    · rename_i h
      obtain ⟨h1, h2⟩ := h
      subst h1; subst h2
      simp only [dense, Nat.sub_self, List.replicate_zero, List.nil_append]
      rw [ih (col + 1)]
      have : 1 + runLen (col + 1) k r = runLen (col + 1) k r + 1 := by omega
      rw [this, List.replicate_succ]
      simp [Nat.add_assoc, Nat.add_comm 1]
      congr 1; omega
    · simp

/-- C12, one colour of one band: shifts and run-length compression expand to the dense row -/
theorem expand_encodeLine (offset : Nat) (items : List (Nat × Nat)) :
    expand (encodeLine offset items) = dense offset items := by
  fun_induction encodeLine offset items with
  | case1 => simp [expand, dense]
  | case2 offset col code rest reps ih =>
    have hexp : ∀ a b : List Tok, expand (a ++ b) = expand a ++ expand b := by
      intro a b; simp [expand]
    rw [hexp, hexp, expand_emit, expand_emit, ih]
    simp only [dense]
    rw [dense_run col code rest]
    have : reps = runLen col code rest + 1 := by simp [reps]; omega
    rw [this, List.replicate_succ]
    simp [List.append_assoc, Nat.add_assoc, Nat.add_comm 1]

end Sixel
